(* Model/Syncer.v — the full node's block application: block/sync.go (SyncLoop header/data cases,
   trySyncNextBlock, handleEmptyDataHash), pkg/cache/cache.go (items by height, seen hashes, the
   gob files written on clean shutdown), block/manager.go (getInitialState, NewManager start-up,
   execValidate/execApplyBlock via Model/Types.v), pkg/store (state, block batch, height records).
   Code state: after the repairs f41125c (block saved before the state), 5877669 (SyncLoop tries the loaded
   caches at start) and 3873d52 (signer address bound to its key, in Model/Types.v).  The model of the
   code before them is frozen in Model/SyncerOld.v.
   Both ingress paths (DA scanning block/retriever.go, P2P store polling block/store.go) only append
   events to headerInCh/dataInCh; SyncLoop consumes one event at a time, so a history is a list of
   events, clean restarts and crashes.  Second part (end of the file): the same node with the signature
   payload provider of block.ManagerOptions as a parameter of the validation, and with a store.Height() call
   of an event's handling that fails (transient read fault); the first part is its instance "default provider,
   no fault".  Definitions only; proofs are in Proofs/SyncerProofs.v. *)
From Coq Require Import String NArith ZArith List Bool.
From Verif Require Import Base.KV Base.Keys Model.Types.
Import ListNotations.
Open Scope string_scope.
Open Scope list_scope.
Open Scope N_scope.

(* genesis.Genesis + what InitChain returns *)
Record config := { g_chain : chainid; g_initial : N; g_time : Z; g_proposer : addr; g_initroot : root }.

Definition block := (sheader * data)%type.

(* ---- durable records: pkg/store/store.go (UpdateState "/s", SaveBlockData one batch for a height,
   SetHeight "/t").  The four keys of a block batch (/h /d /c /i) are one atomic unit; they are
   modelled as one record under the header key. *)
Inductive sval := VState (s : cstate) | VBlock (sh : sheader) (d : data) | VHeight (n : N).
Definition state_key : string := "/s".
Definition height_key : string := "/t".
Definition block_key (n : N) : string := ("/h/" ++ dec n)%string.
Definition img := kv sval.
Definition wr := write sval.

Definition d_height (m : img) : N :=                      (* store.Height: missing = 0 *)
  match kv_get m height_key with Some (VHeight n) => n | _ => 0 end.
Definition d_state (m : img) : option cstate :=           (* store.GetState *)
  match kv_get m state_key with Some (VState s) => Some s | _ => None end.
Definition d_block (m : img) (n : N) : option block :=    (* store.GetBlockData *)
  match kv_get m (block_key n) with Some (VBlock sh d) => Some (sh, d) | _ => None end.

(* ---- pkg/cache/cache.go: items by height (latest SetItem wins), seen hashes -------------------- *)
Record cache := {
  c_hdrs : list (N * sheader);      (* headerCache.items *)
  c_data : list (N * data);         (* dataCache.items *)
  c_hseen : list header;            (* headerCache.hashes: Header.Hash() = the header term *)
  c_dseen : list commitment         (* dataCache.hashes: Data.DACommitment() = the tx list *)
}.
Definition empty_cache : cache := {| c_hdrs := []; c_data := []; c_hseen := []; c_dseen := [] |}.

Fixpoint lookup {A} (l : list (N * A)) (n : N) : option A :=     (* GetItem *)
  match l with
  | [] => None
  | (k, v) :: r => if k =? n then Some v else lookup r n
  end.
Definition remove {A} (l : list (N * A)) (n : N) : list (N * A) :=   (* DeleteItem *)
  filter (fun e => negb (fst e =? n)) l.

Definition set_hdr (c : cache) (n : N) (sh : sheader) : cache :=
  {| c_hdrs := (n, sh) :: c_hdrs c; c_data := c_data c; c_hseen := c_hseen c; c_dseen := c_dseen c |}.
Definition set_data (c : cache) (n : N) (d : data) : cache :=
  {| c_hdrs := c_hdrs c; c_data := (n, d) :: c_data c; c_hseen := c_hseen c; c_dseen := c_dseen c |}.
Definition add_hseen (c : cache) (h : header) : cache :=
  {| c_hdrs := c_hdrs c; c_data := c_data c; c_hseen := h :: c_hseen c; c_dseen := c_dseen c |}.
Definition add_dseen (c : cache) (x : commitment) : cache :=
  {| c_hdrs := c_hdrs c; c_data := c_data c; c_hseen := c_hseen c; c_dseen := x :: c_dseen c |}.
Definition hseen (c : cache) (h : header) : bool := existsb (header_eqb h) (c_hseen c).
Definition dseen (c : cache) (x : commitment) : bool := existsb (commitment_eqb x) (c_dseen c).
Definition is_empty_commitment (x : commitment) : bool := match x with [] => true | _ => false end.

(* trySyncNextBlock, after a block at height n was applied: sync.go:181-186 *)
Definition after_apply (c : cache) (n : N) (sh : sheader) : cache :=
  {| c_hdrs := remove (c_hdrs c) n; c_data := remove (c_data c) n;
     c_hseen := sh_hdr sh :: c_hseen c;
     c_dseen := if is_empty_commitment (h_data (sh_hdr sh)) then c_dseen c else h_data (sh_hdr sh) :: c_dseen c |}.

(* one ExecuteTxs call as the execution layer sees it *)
Record call := { x_height : N; x_time : Z; x_prev : root; x_txs : list tx }.

Inductive status := Running | Halted | BootFailed | FuelOut.
(* Running: SyncLoop is consuming events.  Halted: SyncLoop returned after sending on errCh
   (sync.go:64-67, 107-110).  BootFailed: NewManager returned an error.  FuelOut: never (fuel_enough). *)

Record node := {
  n_disk : img;
  n_last : cstate;          (* Manager.lastState *)
  n_cache : cache;          (* headerCache + dataCache (volatile) *)
  n_files : cache;          (* the gob files of the last clean shutdown (manager.go SaveCache/LoadCache) *)
  n_status : status;
  n_log : list call         (* ghost: every ExecuteTxs call so far, across restarts *)
}.

Section WithExec.
  Variable exec : root -> N -> Z -> list tx -> root.    (* Executor.ExecuteTxs: prev root, height, time, txs *)

  (* the three durable writes of one block application, in the code's order: sync.go trySyncNextBlock
     (since f41125c: the block is saved before the state) *)
  Definition block_writes (m : img) (new : cstate) (sh : sheader) (d : data) : list wr :=
    let n := h_height (sh_hdr sh) in
    [ WBatch [Put (block_key n) (VBlock sh d)];                       (* SaveBlockData *)
      W1 (Put state_key (VState new)) ] ++                            (* updateState *)
    (if n <=? d_height m then [] else [W1 (Put height_key (VHeight n))]).   (* SetHeight: only raises *)

  Record loopst := {
    l_disk : img; l_last : cstate; l_cache : cache; l_log : list call; l_ws : list wr; l_status : status }.

  (* trySyncNextBlock: sync.go:127-188.  Fuel = cached headers + 1; every iteration deletes one. *)
  Fixpoint try_sync (fuel : nat) (st : loopst) : loopst :=
    match fuel with
    | O => {| l_disk := l_disk st; l_last := l_last st; l_cache := l_cache st; l_log := l_log st;
              l_ws := l_ws st; l_status := FuelOut |}
    | S f =>
        let next := d_height (l_disk st) + 1 in
        match lookup (c_hdrs (l_cache st)) next with
        | None => st
        | Some sh =>
            match lookup (c_data (l_cache st)) next with
            | None => st
            | Some d =>
                if validate (l_last st) sh d then
                  let h := sh_hdr sh in
                  let r := exec (s_app (l_last st)) (h_height h) (h_time h) (d_txs d) in
                  let new := next_state (l_last st) h r in
                  let ws := block_writes (l_disk st) new sh d in
                  try_sync f {| l_disk := apply_writes (l_disk st) ws; l_last := new;
                                l_cache := after_apply (l_cache st) next sh;
                                l_log := l_log st ++ [{| x_height := h_height h; x_time := h_time h;
                                                         x_prev := s_app (l_last st); x_txs := d_txs d |}];
                                l_ws := l_ws st ++ ws; l_status := Running |}
                else {| l_disk := l_disk st; l_last := l_last st; l_cache := l_cache st; l_log := l_log st;
                        l_ws := l_ws st; l_status := Halted |}
            end
        end
    end.

  Definition start_loop (nd : node) (c : cache) : loopst :=
    try_sync (S (length (c_hdrs c)))
      {| l_disk := n_disk nd; l_last := n_last nd; l_cache := c; l_log := n_log nd; l_ws := []; l_status := Running |}.

  (* after trySyncNextBlock returned: on error SyncLoop returns before SetSeen *)
  Definition finish (nd : node) (st : loopst) (mark : cache -> cache) : node * list wr :=
    ({| n_disk := l_disk st; n_last := l_last st;
        n_cache := match l_status st with Running => mark (l_cache st) | _ => l_cache st end;
        n_files := n_files nd; n_status := l_status st; n_log := l_log st |}, l_ws st).

  (* handleEmptyDataHash: sync.go:191-217 (LastDataHash of the metadata is not modelled: nothing compares it) *)
  Definition empty_data (h : header) : data :=
    {| d_meta := Some {| m_chain := h_chain h; m_height := h_height h; m_time := h_time h |}; d_txs := [] |}.

  Inductive event := EvHeader (sh : sheader) (da : N) | EvData (d : data) (da : N).

  (* SyncLoop, case headerEvent: sync.go:32-69 *)
  Definition on_header (nd : node) (sh : sheader) : node * list wr :=
    let h := sh_hdr sh in
    if (h_height h <=? d_height (n_disk nd)) || hseen (n_cache nd) h then (nd, [])
    else
      let c1 := set_hdr (n_cache nd) (h_height h) sh in
      let c2 := if is_empty_commitment (h_data h) then set_data c1 (h_height h) (empty_data h) else c1 in
      finish nd (start_loop nd c2) (fun c => add_hseen c h).

  (* SyncLoop, case dataEvent: sync.go:70-111 *)
  Definition on_data (nd : node) (d : data) : node * list wr :=
    match d_txs d, d_meta d with
    | [], _ => (nd, [])
    | _, None => (nd, [])
    | _, Some m =>
        if dseen (n_cache nd) (d_txs d) then (nd, [])
        else if m_height m <=? d_height (n_disk nd) then (nd, [])
        else finish nd (start_loop nd (set_data (n_cache nd) (m_height m) d)) (fun c => add_dseen c (d_txs d))
    end.

  (* one event; a loop that has returned consumes nothing *)
  Definition process (nd : node) (e : event) : node * list wr :=
    match n_status nd with
    | Running => match e with EvHeader sh _ => on_header nd sh | EvData d _ => on_data nd d end
    | _ => (nd, [])
    end.

  (* ---- start-up: manager.go getInitialState + NewManager ------------------------------------------ *)
  Definition genesis_state (g : config) : cstate :=         (* manager.go:240-248 *)
    {| s_chain := g_chain g; s_initial := g_initial g; s_height := g_initial g - 1; s_time := g_time g;
       s_app := g_initroot g; s_da := 0 |}.
  Definition genesis_header (g : config) : header :=        (* manager.go:189-198 *)
    {| h_height := g_initial g; h_time := g_time g; h_chain := g_chain g; h_last := None;
       h_data := empty_commitment; h_app := g_initroot g; h_proposer := g_proposer g |}.
  (* manager.go:226-235 with signer = nil: unsigned, no public key, signer address = the genesis
     proposer address (since fc1d21b a signer address without a public key survives
     SignedHeader.ToProto/FromProto, types/serialization.go, so the store returns it as written) *)
  Definition genesis_block (g : config) : block :=
    ({| sh_hdr := genesis_header g; sh_sig := SigEmpty; sh_signer := {| sg_pub := None; sg_addr := g_proposer g |} |},
     {| d_meta := None; d_txs := [] |}).

  Definition boot_writes (g : config) (m : img) : option (cstate * list wr) :=
    match d_state m with
    | None =>
        let ws1 := [WBatch [Put (block_key (g_initial g)) (VBlock (fst (genesis_block g)) (snd (genesis_block g)))]] in
        let s := genesis_state g in
        Some (s, ws1 ++ (if s_height s <=? d_height m then [] else [W1 (Put height_key (VHeight (s_height s)))]))
    | Some s =>
        if s_height s <? g_initial g then None                 (* manager.go:257 *)
        else Some (s, if s_height s <=? d_height m then [] else [W1 (Put height_key (VHeight (s_height s)))])
    end.

  (* a new process on image m: NewManager, then SyncLoop starts and (since 5877669) calls
     trySyncNextBlock once on the caches loaded from the files of the last clean shutdown.
     [log] is the ghost log.  Returns the node and the atomic writes made, in order. *)
  Definition boot (g : config) (m : img) (files : cache) (log : list call) : node * list wr :=
    match boot_writes g m with
    | Some (s, ws) =>
        let st := try_sync (S (length (c_hdrs files)))
                    {| l_disk := apply_writes m ws; l_last := s; l_cache := files; l_log := log; l_ws := [];
                       l_status := Running |} in
        ({| n_disk := l_disk st; n_last := l_last st; n_cache := l_cache st; n_files := files;
            n_status := l_status st; n_log := l_log st |}, ws ++ l_ws st)
    | None => ({| n_disk := m; n_last := genesis_state g; n_cache := empty_cache; n_files := files;
                  n_status := BootFailed; n_log := log |}, [])
    end.

  (* ---- histories ---------------------------------------------------------------------------------- *)
  Inductive item :=
  | IEv (e : event)
  | IRestart                       (* clean stop (caches saved) and start *)
  | ICrash (e : event) (k : nat)   (* the process dies while handling e, after k atomic writes; then starts *)
  | ICrashBoot (k : nat).          (* the process dies, and the next start dies after k writes; then starts *)

  Definition restart_files (nd : node) : cache :=
    match n_status nd with BootFailed => n_files nd | _ => n_cache nd end.

  Definition step (g : config) (nd : node) (i : item) : node :=
    match i with
    | IEv e => fst (process nd e)
    | IRestart => fst (boot g (n_disk nd) (restart_files nd) (n_log nd))
    | ICrash e k =>
        (* ghost log: only the calls of completed steps are kept (whether the call of the block being
           applied at the instant of death was made is not determined by the number of writes) *)
        fst (boot g (crash_after k (n_disk nd) (snd (process nd e))) (n_files nd) (n_log nd))
    | ICrashBoot k =>
        fst (boot g (crash_after k (n_disk nd) (snd (boot g (n_disk nd) (n_files nd) (n_log nd)))) (n_files nd) (n_log nd))
    end.

  Definition init (g : config) : node := fst (boot g [] empty_cache []).
  Definition run_from (g : config) (nd : node) (h : list item) : node := fold_left (step g) h nd.
  Definition run (g : config) (h : list item) : node := run_from g (init g) h.

  (* ---- what a proposer chain looks like (the conclusion of C01, the hypothesis of C02/C05) --------- *)
  (* block at height n built on previous header [prev], previous time t, current root r, by proposer key k *)
  Definition block_okb (g : config) (k : key) (prev : option header) (n : N) (t : Z) (r : root) (b : block) : bool :=
    let '(sh, d) := b in
    let h := sh_hdr sh in
    (h_height h =? n) && (h_chain h =? g_chain g) &&
    match h_last h, prev with
    | None, None => true | Some x, Some y => header_eqb x y | _, _ => false end &&
    (t <=? h_time h)%Z &&
    commitment_eqb (d_txs d) (h_data h) &&
    (h_app h =? r) &&
    addr_eqb (h_proposer h) (Addr k) &&
    verify_header (Pub k) h (sh_sig sh) &&
    match sg_pub (sh_signer sh) with Some (Pub k') => k' =? k | None => false end &&
    addr_eqb (sg_addr (sh_signer sh)) (Addr k) &&
    match d_meta d with
    | Some m => (m_chain m =? g_chain g) && (m_height m =? n) && (m_time m =? h_time h)%Z
    | None => false
    end.

  Fixpoint chain_fromb (g : config) (k : key) (prev : option header) (n : N) (t : Z) (r : root) (C : list block) : bool :=
    match C with
    | [] => true
    | b :: C' =>
        block_okb g k prev n t r b &&
        chain_fromb g k (Some (sh_hdr (fst b))) (n + 1) (h_time (sh_hdr (fst b)))
                    (exec r n (h_time (sh_hdr (fst b))) (d_txs (snd b))) C'
    end.

  (* heights consecutive from the initial height, each header links to the previous one, times do not
     decrease (from the genesis time), data hash = commitment of the block's transactions, app hash =
     root after executing all earlier blocks, signed by the proposer with signer = (Pub k, Addr k),
     data metadata = (chain, height, time) of the header *)
  Definition ChainValid (g : config) (k : key) (C : list block) : Prop :=
    (1 <= g_initial g) /\ g_proposer g = Addr k /\
    chain_fromb g k None (g_initial g) (g_time g) (g_initroot g) C = true.

  (* ---- expected results, for the statements -------------------------------------------------------- *)
  (* state and call log after applying the first j blocks of C *)
  Fixpoint state_after (s : cstate) (C : list block) (j : nat) : cstate :=
    match j, C with
    | S j', (sh, d) :: C' =>
        state_after (next_state s (sh_hdr sh) (exec (s_app s) (h_height (sh_hdr sh)) (h_time (sh_hdr sh)) (d_txs d))) C' j'
    | _, _ => s
    end.
  Fixpoint calls_after (s : cstate) (C : list block) (j : nat) : list call :=
    match j, C with
    | S j', (sh, d) :: C' =>
        {| x_height := h_height (sh_hdr sh); x_time := h_time (sh_hdr sh); x_prev := s_app s; x_txs := d_txs d |} ::
        calls_after (next_state s (sh_hdr sh) (exec (s_app s) (h_height (sh_hdr sh)) (h_time (sh_hdr sh)) (d_txs d))) C' j'
    | _, _ => []
    end.

  (* the node has applied exactly the first j blocks of C *)
  Definition synced_to (g : config) (C : list block) (nd : node) (j : nat) : Prop :=
    (j <= length C)%nat /\
    d_height (n_disk nd) = g_initial g + N.of_nat j - 1 /\
    (forall i, (i < j)%nat -> d_block (n_disk nd) (g_initial g + N.of_nat i) = nth_error C i) /\
    n_last nd = state_after (genesis_state g) C j /\
    (j <> O -> d_state (n_disk nd) = Some (n_last nd)) /\
    (j = O -> d_state (n_disk nd) = None).

  (* events that are items of the chain *)
  Definition ev_in (C : list block) (e : event) : Prop :=
    match e with
    | EvHeader sh _ => exists d, In (sh, d) C
    | EvData d _ => exists sh, In (sh, d) C
    end.
  Definition item_in (C : list block) (i : item) : Prop :=
    match i with IEv e => ev_in C e | ICrash e _ => ev_in C e | IRestart => True | ICrashBoot _ => True end.
  Definition is_clean (i : item) : bool := match i with IEv _ | IRestart => true | _ => false end.

  (* delivered: the header / data of block b occurs as an event in the history *)
  Definition header_delivered (h : list item) (b : block) : Prop := exists da, In (IEv (EvHeader (fst b) da)) h.
  Definition data_delivered (h : list item) (b : block) : Prop := exists da, In (IEv (EvData (snd b) da)) h.

  (* guard of C02_complete_partial: non-empty blocks have pairwise distinct transaction lists *)
  Fixpoint distinct_commitmentsb (C : list block) : bool :=
    match C with
    | [] => true
    | b :: C' =>
        (is_empty_commitment (d_txs (snd b)) ||
         negb (existsb (fun b' => commitment_eqb (d_txs (snd b)) (d_txs (snd b'))) C')) &&
        distinct_commitmentsb C'
    end.

  (* the recorded chain height has a retrievable proposer block at every height, and the recorded
     state is the state of exactly that height *)
  Definition recovered (g : config) (C : list block) (nd : node) : Prop :=
    n_status nd = Running /\ exists j, synced_to g C nd j.
End WithExec.

(* ================================================================================================
   Signature payload providers and transient store read faults.

   The definitions above are the node with the DEFAULT signature payload provider whose store reads
   never fail; they are kept as they are (C05, the composition theorems and the P2P ingress model are
   stated on them) and are the instance [prov = 0], no fault, of the definitions below
   (Proofs/SyncerProofs.v: try_sync_f_base, process_f_base, boot_p_base, frun_lift).

   (1) block.ManagerOptions.SignaturePayloadProvider (manager.go:266, Manager.signaturePayloadProvider):
       the function of the header whose result the proposer signs and every verifier checks
       (types/signed_header.go:125-143).  By harness index: 0 = types.DefaultSignaturePayloadProvider
       (the header's bytes), p > 0 = some other function.  Symbolic: the payload of h under p is the
       term [payload p h]; idealisation: different providers never yield the same bytes for a block
       header (harness: sha256 of a provider tag and the header bytes).
       WHICH provider verifies is decided where the header is used: trySyncNextBlock attaches the
       Manager's provider to the cached header object right before Validate (sync.go:155-156), so the
       verifier attached to the object when it entered the cache — an unexported field that the gob files
       of a clean shutdown do not keep (pkg/cache SaveToDisk/LoadFromDisk) — never matters.
   (2) store.Height() returning an error while the process lives on.  SyncLoop reads the height once in
       the header case (sync.go:49-53, error: the event is skipped, nothing cached, nothing marked as
       seen), once in the data case AFTER the seen test (sync.go:93-97, same), and once per iteration of
       trySyncNextBlock (sync.go:137-140, error: trySyncNextBlock returns it and SyncLoop sends it on
       errCh and returns — without marking the event as seen; the item it had put into the cache stays
       there and is saved on the way out).  A fault of one event handling is [Some n]: the (n+1)-th
       store.Height() call made while the event is handled fails (if that many are made).
       GetBlockData fails only inside handleEmptyDataHash (sync.go:197-203), where the error is ignored
       (it only leaves LastDataHash of the prepared metadata empty, which nothing compares).
   ================================================================================================ *)

Definition payload (p : N) (h : header) : header :=
  if p =? 0 then h
  else {| h_height := 0; h_time := 0%Z; h_chain := p; h_last := Some h; h_data := []; h_app := 0;
          h_proposer := AddrEmpty |}.

(* SignedHeader.ValidateBasic with signatureProvider = provider p — types/signed_header.go:105-143;
   Types.validate_basic is the instance p = 0 *)
Definition validate_basic_p (p : N) (sh : sheader) : bool :=
  negb (addr_eqb (h_proposer (sh_hdr sh)) AddrEmpty) &&
  match sh_sig sh with SigEmpty => false | _ => true end &&
  addr_eqb (h_proposer (sh_hdr sh)) (sg_addr (sh_signer sh)) &&
  match sg_pub (sh_signer sh) with
  | Some pk => addr_eqb (sg_addr (sh_signer sh)) (key_address pk) &&
               verify_header pk (payload p (sh_hdr sh)) (sh_sig sh)
  | None => false
  end.

(* Manager.execValidate on a header that carries provider p — block/manager.go:794-829;
   Types.validate is the instance p = 0 *)
Definition validate_p (p : N) (s : cstate) (sh : sheader) (d : data) : bool :=
  validate_basic_p p sh && validate_pair sh d &&
  (h_chain (sh_hdr sh) =? s_chain s)%N &&
  (h_height (sh_hdr sh) =? s_height s + 1)%N &&
  negb ((1 <? h_height (sh_hdr sh))%N && (h_time (sh_hdr sh) <? s_time s)%Z) &&
  (h_app (sh_hdr sh) =? s_app s)%N.

(* read faults of one event handling *)
Definition fault_now (flt : option nat) : bool := match flt with Some O => true | _ => false end.
Definition tick (flt : option nat) : option nat := match flt with Some (S n) => Some n | _ => None end.
Definition halting_flt (flt : option nat) : bool := match flt with Some (S _) => true | _ => false end.

(* histories with read faults *)
Inductive fitem :=
| FEv (e : event) (flt : option nat)   (* one event; flt = the store.Height() call of its handling that fails *)
| FRestart                             (* clean stop (caches saved; also after SyncLoop returned by itself) and start *)
| FCrash (e : event) (k : nat)
| FCrashBoot (k : nat).

Definition lift (i : item) : fitem :=
  match i with IEv e => FEv e None | IRestart => FRestart | ICrash e k => FCrash e k | ICrashBoot k => FCrashBoot k end.

(* an item that may make SyncLoop return / an item after which a new SyncLoop runs *)
Definition halting (i : fitem) : bool := match i with FEv _ flt => halting_flt flt | _ => false end.
Definition boots (i : fitem) : bool := match i with FEv _ _ => false | _ => true end.
(* decidable guard "no read fault inside trySyncNextBlock since the last start" *)
Fixpoint live_after (b : bool) (h : list fitem) : bool :=
  match h with
  | [] => b
  | i :: r => live_after (if boots i then true else if halting i then false else b) r
  end.

Section WithProv.
  Variable exec : root -> N -> Z -> list tx -> root.
  Variable prov : N.     (* the node's ManagerOptions.SignaturePayloadProvider *)

  Definition set_status (st : loopst) (s : status) : loopst :=
    {| l_disk := l_disk st; l_last := l_last st; l_cache := l_cache st; l_log := l_log st; l_ws := l_ws st;
       l_status := s |}.

  (* trySyncNextBlock: sync.go:127-188, with the height read of every iteration (sync.go:137-140) and the
     verifier attached before Validate (sync.go:155-156) *)
  Fixpoint try_sync_f (fuel : nat) (flt : option nat) (st : loopst) : loopst :=
    match fuel with
    | O => set_status st FuelOut
    | S f =>
        if fault_now flt then set_status st Halted        (* currentHeight, err := m.store.Height(ctx); return err *)
        else
        let next := d_height (l_disk st) + 1 in
        match lookup (c_hdrs (l_cache st)) next with
        | None => st
        | Some sh =>
            match lookup (c_data (l_cache st)) next with
            | None => st
            | Some d =>
                (* h.SetCustomVerifier(m.signaturePayloadProvider); m.Validate(ctx, h, d) *)
                if validate_p prov (l_last st) sh d then
                  let h := sh_hdr sh in
                  let r := exec (s_app (l_last st)) (h_height h) (h_time h) (d_txs d) in
                  let new := next_state (l_last st) h r in
                  let ws := block_writes (l_disk st) new sh d in
                  try_sync_f f (tick flt)
                    {| l_disk := apply_writes (l_disk st) ws; l_last := new;
                       l_cache := after_apply (l_cache st) next sh;
                       l_log := l_log st ++ [{| x_height := h_height h; x_time := h_time h;
                                                x_prev := s_app (l_last st); x_txs := d_txs d |}];
                       l_ws := l_ws st ++ ws; l_status := Running |}
                else set_status st Halted
            end
        end
    end.

  Definition start_loop_f (nd : node) (c : cache) (flt : option nat) : loopst :=
    try_sync_f (S (length (c_hdrs c))) flt
      {| l_disk := n_disk nd; l_last := n_last nd; l_cache := c; l_log := n_log nd; l_ws := []; l_status := Running |}.

  (* SyncLoop, case headerEvent: sync.go:38-69; the height is read first (sync.go:49-53) *)
  Definition on_header_f (nd : node) (sh : sheader) (flt : option nat) : node * list wr :=
    let h := sh_hdr sh in
    if fault_now flt then (nd, [])
    else if (h_height h <=? d_height (n_disk nd)) || hseen (n_cache nd) h then (nd, [])
    else
      let c1 := set_hdr (n_cache nd) (h_height h) sh in
      let c2 := if is_empty_commitment (h_data h) then set_data c1 (h_height h) (empty_data h) else c1 in
      finish nd (start_loop_f nd c2 (tick flt)) (fun c => add_hseen c h).

  (* SyncLoop, case dataEvent: sync.go:70-111; the height is read after the seen test (sync.go:89-97) *)
  Definition on_data_f (nd : node) (d : data) (flt : option nat) : node * list wr :=
    match d_txs d, d_meta d with
    | [], _ => (nd, [])
    | _, None => (nd, [])
    | _, Some m =>
        if dseen (n_cache nd) (d_txs d) then (nd, [])
        else if fault_now flt then (nd, [])
        else if m_height m <=? d_height (n_disk nd) then (nd, [])
        else finish nd (start_loop_f nd (set_data (n_cache nd) (m_height m) d) (tick flt)) (fun c => add_dseen c (d_txs d))
    end.

  Definition process_f (nd : node) (e : event) (flt : option nat) : node * list wr :=
    match n_status nd with
    | Running => match e with EvHeader sh _ => on_header_f nd sh flt | EvData d _ => on_data_f nd d flt end
    | _ => (nd, [])
    end.

  (* a new process: as [boot]; the trySyncNextBlock call at the start of SyncLoop validates what the files
     held with the Manager's provider *)
  Definition boot_p (g : config) (m : img) (files : cache) (log : list call) : node * list wr :=
    match boot_writes g m with
    | Some (s, ws) =>
        let st := try_sync_f (S (length (c_hdrs files))) None
                    {| l_disk := apply_writes m ws; l_last := s; l_cache := files; l_log := log; l_ws := [];
                       l_status := Running |} in
        ({| n_disk := l_disk st; n_last := l_last st; n_cache := l_cache st; n_files := files;
            n_status := l_status st; n_log := l_log st |}, ws ++ l_ws st)
    | None => ({| n_disk := m; n_last := genesis_state g; n_cache := empty_cache; n_files := files;
                  n_status := BootFailed; n_log := log |}, [])
    end.

  Definition fstep (g : config) (nd : node) (i : fitem) : node :=
    match i with
    | FEv e flt => fst (process_f nd e flt)
    | FRestart => fst (boot_p g (n_disk nd) (restart_files nd) (n_log nd))
    | FCrash e k =>
        fst (boot_p g (crash_after k (n_disk nd) (snd (process_f nd e None))) (n_files nd) (n_log nd))
    | FCrashBoot k =>
        fst (boot_p g (crash_after k (n_disk nd) (snd (boot_p g (n_disk nd) (n_files nd) (n_log nd)))) (n_files nd) (n_log nd))
    end.

  Definition finit (g : config) : node := fst (boot_p g [] empty_cache []).
  Definition frun_from (g : config) (nd : node) (h : list fitem) : node := fold_left (fstep g) h nd.
  Definition frun (g : config) (h : list fitem) : node := frun_from g (finit g) h.

  (* a proposer chain whose headers are signed over the payload of provider [prov] *)
  Definition block_okb_p (g : config) (k : key) (prev : option header) (n : N) (t : Z) (r : root) (b : block) : bool :=
    let '(sh, d) := b in
    let h := sh_hdr sh in
    (h_height h =? n) && (h_chain h =? g_chain g) &&
    match h_last h, prev with
    | None, None => true | Some x, Some y => header_eqb x y | _, _ => false end &&
    (t <=? h_time h)%Z &&
    commitment_eqb (d_txs d) (h_data h) &&
    (h_app h =? r) &&
    addr_eqb (h_proposer h) (Addr k) &&
    verify_header (Pub k) (payload prov h) (sh_sig sh) &&
    match sg_pub (sh_signer sh) with Some (Pub k') => k' =? k | None => false end &&
    addr_eqb (sg_addr (sh_signer sh)) (Addr k) &&
    match d_meta d with
    | Some m => (m_chain m =? g_chain g) && (m_height m =? n) && (m_time m =? h_time h)%Z
    | None => false
    end.

  Fixpoint chain_fromb_p (g : config) (k : key) (prev : option header) (n : N) (t : Z) (r : root) (C : list block) : bool :=
    match C with
    | [] => true
    | b :: C' =>
        block_okb_p g k prev n t r b &&
        chain_fromb_p g k (Some (sh_hdr (fst b))) (n + 1) (h_time (sh_hdr (fst b)))
                      (exec r n (h_time (sh_hdr (fst b))) (d_txs (snd b))) C'
    end.

  Definition ChainValidP (g : config) (k : key) (C : list block) : Prop :=
    (1 <= g_initial g) /\ g_proposer g = Addr k /\
    chain_fromb_p g k None (g_initial g) (g_time g) (g_initroot g) C = true.

  Definition fitem_in (C : list block) (i : fitem) : Prop :=
    match i with FEv e _ => ev_in C e | FCrash e _ => ev_in C e | FRestart => True | FCrashBoot _ => True end.
  Definition fclean (i : fitem) : bool := match i with FEv _ _ | FRestart => true | _ => false end.

  (* delivered and not lost: event [e_of da] occurs at some position p of h2 (after the past h1), its own
     height read did not fail, and SyncLoop was running when it arrived *)
  Definition delivered_live (g : config) (h1 h2 : list fitem) (e_of : N -> event) : Prop :=
    exists p da flt, nth_error h2 p = Some (FEv (e_of da) flt) /\ flt <> Some O /\
                     n_status (frun g (h1 ++ firstn p h2)) = Running.
End WithProv.
