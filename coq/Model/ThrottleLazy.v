(* Model/ThrottleLazy.v — the pending-submission limit inside the LAZY aggregation loop (property C08, idle chain).
   Definitions only; proofs in Proofs/ThrottleLazyProofs.v.

   block/aggregation.go   AggregationLoop (the initial wait of one block time after genesis time, then
                          time.NewTimer(0) twice), lazyAggregationLoop (lazyTimer case: produceBlock; blockTimer
                          case: produceBlock iff m.txsAvailable, then txsAvailable = false, else
                          blockTimer.Reset(BlockTime); txNotifyCh case: txsAvailable = true), produceBlock
                          (publishBlock, then lazyTimer.Reset(LazyBlockInterval - elapsed) and
                          blockTimer.Reset(BlockTime - elapsed))
   block/manager.go       publishBlockInternal = Throttle.produce (the limit check, then the block), NotifyNewTransactions
   composed with the two submission loops of Model/Throttle.v as events that happen at given instants.

   Time is virtual, in milliseconds (N), counted from genesis time; a production and a submission iteration take no
   time (elapsed = 0: what testing/synctest's clock shows when nothing sleeps).  The model is the loop goroutine seen
   at its production attempts: on a loop without announced transactions the block timer only re-arms itself (every
   l_bt), so the next instant at which publishBlock is called is
       next_attempt = lazyTimer's instant,                                   if no transactions are announced
                    = the earlier of lazyTimer's and blockTimer's next instant, if they are.
   EVERY attempt — produced or refused — re-arms BOTH timers: the lazy timer is a one-shot timer that nothing else
   re-arms, so this is what keeps an idle chain alive after a refusal.
   Events (submission iterations, transaction announcements) are placed by the environment strictly between timer
   instants (the harness generates them so; simultaneous wake-ups of two goroutines have no defined order). *)
From Coq Require Import NArith List Bool.
From Verif Require Import Model.Throttle.
Import ListNotations.
Open Scope N_scope.

Record lcfg := mk_lcfg {
  l_c : cfg;       (* initial height, limit *)
  l_bt : N;        (* config.Node.BlockTime, ms *)
  l_li : N         (* config.Node.LazyBlockInterval, ms *)
}.

Record lstate := mk_lstate {
  l_s : state;               (* store height, watermarks, DA layer: Model/Throttle.v *)
  l_now : N;                 (* instant of the last thing that happened *)
  l_lz : N;                  (* instant at which lazyTimer fires (always armed while the loop is in select) *)
  l_bk : N;                  (* an instant at which blockTimer fires; without announced transactions it re-arms itself every l_bt from there *)
  l_avail : bool;            (* m.txsAvailable *)
  l_txs : bool;              (* the sequencer holds transactions for the next batch *)
  l_atts : list (N * (bool * N))  (* calls of publishBlock so far, newest first: instant, (produced, store height after) *)
}.

(* aggregation.go:17-34, 54: wait until genesis time + block time, then both timers fire at once *)
Definition linit (c : lcfg) : lstate :=
  mk_lstate (init_state (l_c c)) 0 (l_bt c) (l_bt c) false false [].

(* the first instant >= now at which blockTimer fires (aggregation.go:77: re-armed to a full block time each time
   it fires without announced transactions) *)
Definition next_bk (c : lcfg) (s : lstate) : N :=
  if l_now s <=? l_bk s then l_bk s
  else l_bk s + ((l_now s - l_bk s + l_bt c - 1) / l_bt c) * l_bt c.

(* the next instant at which the loop calls publishBlock *)
Definition next_attempt (c : lcfg) (s : lstate) : N :=
  if l_avail s then N.min (l_lz s) (next_bk c s) else l_lz s.

(* produceBlock at that instant (aggregation.go:62-66 from the lazy timer, 68-74 from the block timer), with
   publishBlockInternal = Throttle.produce.  A refused attempt returns nil like a successful one: both timers are
   re-armed, txsAvailable is cleared if the block timer was the trigger.  The sequencer's transactions are taken
   when a batch is fetched: the attempt is not refused and the block is not the stored genesis block
   (manager.go "using pending block"). *)
Definition attempt (c : lcfg) (s : lstate) : lstate :=
  let t := next_attempt c s in
  let byblock := l_avail s && (next_bk c s <? l_lz s) in
  let r := refused (l_c c) (l_s s) in
  let s' := produce (l_c c) (l_s s) (l_txs s) in
  let used := negb r && negb (t_height s' <=? c_init (l_c c)) in
  mk_lstate s' t (t + l_li c) (t + l_bt c)
            (if byblock then false else l_avail s)
            (if used then false else l_txs s)
            ((t, (negb r, t_height s')) :: l_atts s).

Inductive levent :=
| LHeaders (sc : list outcome)   (* one iteration of HeaderSubmissionLoop, DA answers sc *)
| LData (sc : list outcome)      (* one iteration of DataSubmissionLoop *)
| LNotify.                       (* transactions reach the sequencer and Manager.NotifyNewTransactions is called (reaper.go) *)

(* an event at instant t (the loop goroutine is in select; a notification is received at once: no timer is ready) *)
Definition event (c : lcfg) (s : lstate) (t : N) (e : levent) : lstate * obs :=
  match e with
  | LHeaders sc => let '(s', o) := step (l_c c) (l_s s) (IHeaders sc) in
                   (mk_lstate s' t (l_lz s) (l_bk s) (l_avail s) (l_txs s) (l_atts s), o)
  | LData sc => let '(s', o) := step (l_c c) (l_s s) (IData sc) in
                (mk_lstate s' t (l_lz s) (l_bk s) (l_avail s) (l_txs s) (l_atts s), o)
  | LNotify => (mk_lstate (l_s s) t (l_lz s) (l_bk s) true true (l_atts s), observe 0 [] (l_s s))
  end.

(* the node from state s on: the events at their instants (ascending), the loop's attempts in between, up to and
   including instant H.  None = out of fuel. *)
Fixpoint lrun (fuel : nat) (c : lcfg) (s : lstate) (evs : list (N * levent)) (H : N) : option (lstate * list obs) :=
  match fuel with
  | O => None
  | S f =>
    let ta := next_attempt c s in
    match evs with
    | (te, e) :: r =>
        if te <? ta then
          let '(s1, o) := event c s te e in
          match lrun f c s1 r H with Some (s2, os) => Some (s2, o :: os) | None => None end
        else lrun f c (attempt c s) evs H
    | [] => if ta <=? H then lrun f c (attempt c s) [] H else Some (s, [])
    end
  end.

(* reachable states of the node, for all environments *)
Inductive lreach (c : lcfg) : lstate -> Prop :=
| lr_init : lreach c (linit c)
| lr_event : forall s t e, lreach c s -> l_now s <= t -> t < next_attempt c s -> lreach c (fst (event c s t e))
| lr_attempt : forall s, lreach c s -> lreach c (attempt c s).

(* the Throttle history a state stands for *)
Definition levent_items (e : levent) : list item :=
  match e with LHeaders sc => [IHeaders sc] | LData sc => [IData sc] | LNotify => [] end.
