(* Model/Submitter.v — the DA submission side of the block Manager (property C06).
   Definitions only, no proofs (Proofs/SubmitterProofs.v).

   What is modelled, as the code is today:
     block/pending_base.go      pendingBase: getPending, isEmpty, setLastSubmittedHeight, init
     block/pending_headers.go   PendingHeaders (fetch = header of GetBlockData)
     block/pending_data.go      PendingData    (fetch = data   of GetBlockData)
     block/submitter.go         the bodies of HeaderSubmissionLoop / DataSubmissionLoop, submitToDA with its
                                attempt loop (fuel = maxSubmitAttempts), the two postSubmit closures,
                                createSignedDataToSubmit (empty data elided)
     types/da.go                SubmitWithHelpers: the mapping (ids, err) -> status code
     block/manager.go           NewManager as far as the watermarks go (restart = re-read of the metadata),
                                exponentialBackoff, maxSubmitAttempts, initialBackoff

   Blobs are abstract: a blob is (kind, height).  That a submitted blob decodes to exactly the committed
   header / signed data and verifies under the proposer key is checked by the Go oracle of harness/c06 on
   the real bytes; the byte codec itself is C12's subject.  The DA layer is an INPUT: every submit call is
   answered by the next [outcome] of a script.  Gas price arithmetic is not modelled (no clause of C06
   depends on it).  A failing SetMetadata (pending_base.go:88-91, logged and ignored) is not modelled: the
   datastore contract of C14 (a Put that returned is durable) makes it succeed. *)
From Coq Require Import NArith List Bool.
Import ListNotations.
Open Scope N_scope.

(* ---- the DA layer's possible answers to one SubmitWithOptions call ------------------------------- *)

Inductive kind := KHeader | KData.

(* error classes a DA implementation returns (core/da/errors.go) *)
Inductive fkind :=
| FNotIncluded      (* ErrTxTimedOut: timed out waiting for inclusion *)
| FInMempool        (* ErrTxAlreadyInMempool *)
| FTooBig           (* ErrBlobSizeOverLimit *)
| FErr              (* any other error *)
| FDeadline         (* ErrContextDeadline, returned when the 60 s submit context expires *)
| FSeq.             (* ErrTxIncorrectAccountSequence *)

Inductive outcome :=
| OAccept (k : N)              (* the first min k n of the n blobs are accepted, their ids returned, no error *)
| OFail (f : fkind)            (* nothing accepted, error returned *)
| OAckLost (k : N) (f : fkind) (* the first min k n blobs ARE accepted by the DA layer but the caller sees error f *)
| OCancel (sentinel : bool).   (* the call returns context.Canceled (false) or the DA sentinel ErrContextCanceled (true) *)

(* types/da.go:28-95 SubmitWithHelpers — status code and SubmittedCount seen by submitToDA *)
Inductive status := SSuccess | SNotIncluded | SInMempool | STooBig | SDeadline | SError | SSeq | SCanceled.

Definition status_of_fkind (f : fkind) : status :=       (* types/da.go:42-54 *)
  match f with
  | FNotIncluded => SNotIncluded | FInMempool => SInMempool | FTooBig => STooBig
  | FErr => SError | FDeadline => SDeadline | FSeq => SSeq
  end.

Definition helper_status (o : outcome) (n : N) : status * N :=
  match o with
  | OCancel _ => (SCanceled, 0)                                 (* types/da.go:32-41: errors.Is(err, context.Canceled) || errors.Is(err, coreda.ErrContextCanceled) *)
  | OFail f | OAckLost _ f => (status_of_fkind f, 0)            (* types/da.go:42-64, no ids returned *)
  | OAccept k => let c := N.min k n in
                 if (c =? 0) && negb (n =? 0) then (SError, 0)  (* types/da.go:67-75 no IDs for non-empty input *)
                 else (SSuccess, c)                             (* types/da.go:87-95 *)
  end.

(* what the DA layer itself keeps of the n blobs of a call *)
Definition da_accepts (o : outcome) (n : N) : N :=
  match o with OAccept k | OAckLost k _ => N.min k n | _ => 0 end.

(* ---- configuration ------------------------------------------------------------------------------- *)

Record cfg := { c_bt : N;      (* config.DA.BlockTime in ms *)
                c_ttl : N }.   (* config.DA.MempoolTTL *)

Definition max_attempts : nat := 30.          (* block/manager.go:48 maxSubmitAttempts *)
Definition initial_backoff : N := 100.        (* block/manager.go:59, ms *)
Definition submit_timeout : N := 60000.       (* block/submitter.go:115, ms *)

Definition exp_backoff (c : cfg) (b : N) : N :=                (* block/manager.go:758-767 *)
  let b2 := b * 2 in
  let b3 := if b2 =? 0 then initial_backoff else b2 in
  if c_bt c <? b3 then c_bt c else b3.

(* ---- one pending list (pendingBase[T]) with its DA-side view ----------------------------------------- *)

Record call := { c_hs : list N;          (* heights of the blobs of the call, in blob order *)
                 c_vol : N;              (* in-memory watermark when the call was made *)
                 c_meta : option N;      (* persisted watermark when the call was made *)
                 c_out : outcome }.      (* the DA layer's answer *)

Record side := { vol : N;                (* pendingBase.lastHeight (atomic) *)
                 meta : option N;        (* store metadata under pendingBase.metaKey *)
                 acc : list N;           (* heights of the blobs the DA layer accepted, newest first *)
                 calls : list call }.    (* every SubmitWithOptions call, newest first *)

Definition meta0 (m : option N) : N := match m with Some n => n | None => 0 end.

(* pending_base.go:83-93 setLastSubmittedHeight: compare-and-swap, then Put *)
Definition set_last (n : N) (sd : side) : side :=
  if vol sd <? n then {| vol := n; meta := Some n; acc := acc sd; calls := calls sd |} else sd.

(* the watermark a fresh Manager starts from: pending_base.go:95-112 init on a fresh pendingBase
   (lastHeight = 0): CompareAndSwap(0, lsh) when the recorded lsh is not 0; then block/manager.go:354-361
   (the repair of F8): when genesis.InitialHeight > 1, CompareAndSwap(0, InitialHeight - 1) — in memory only,
   nothing is persisted until the first successful submission. *)
Definition base (init : N) : N := if 1 <? init then init - 1 else 0.
Definition resume (init : N) (m : option N) : N := if meta0 m =? 0 then base init else meta0 m.

Definition reinit (init : N) (sd : side) : side :=
  {| vol := resume init (meta sd); meta := meta sd; acc := acc sd; calls := calls sd |}.

Fixpoint seqN (a : N) (len : nat) : list N :=
  match len with O => [] | S l => a :: seqN (a + 1) l end.

(* pending_base.go:42-63 getPending: the heights (v, height], each fetched from the block store; a block
   exists in the store iff its height is >= the initial height (block/manager.go:235 saves the genesis block
   AT the initial height; nothing is ever stored below it).  None = the error return (before the repair of
   F8 the watermark started at 0 and this was the permanent outcome for initial heights above 1). *)
Definition pending_range (init height v : N) : option (list N) :=
  if v =? height then Some []
  else if height <? v then None
  else let r := seqN (v + 1) (N.to_nat (height - v)) in
       if forallb (fun i => init <=? i) r then Some r else None.

Definition last_height (l : list N) : N := last l 0.   (* submitter.go:190-193 / 215-218 *)

Definition log_call (hs : list N) (o : outcome) (sd : side) : side :=
  {| vol := vol sd; meta := meta sd;
     acc := rev (firstn (N.to_nat (da_accepts o (N.of_nat (length hs)))) hs) ++ acc sd;
     calls := {| c_hs := hs; c_vol := vol sd; c_meta := meta sd; c_out := o |} :: calls sd |}.

Inductive result :=
| RIdle         (* isEmpty: nothing pending, submitter.go:24 / 53 *)
| RNothing      (* nothing to submit after eliding empty data, submitter.go:32 / 62 *)
| RGetErr       (* getPending failed, submitter.go:28 / 58 *)
| RDone         (* submitToDA returned nil having submitted everything *)
| RCancelled    (* submitToDA returned nil because of cancellation, submitter.go:105-107 / 154-156 *)
| RExhausted.   (* submitToDA returned its error after maxSubmitAttempts, submitter.go:167-172 *)

Definition call_cost (o : outcome) : N :=
  match o with OFail FDeadline | OAckLost _ FDeadline => submit_timeout | _ => 0 end.

(* block/submitter.go:76-174 submitToDA.  [fuel] = attempts left, [b] = current backoff (ms), [rem] = the
   heights still to submit, [sc] = the DA layer's future answers ([] = the context is cancelled), [el] =
   virtual time spent so far (ms).  Returns the side, the unconsumed script, the result, the time. *)
Fixpoint submit (c : cfg) (fuel : nat) (b : N) (rem : list N) (sc : list outcome) (sd : side) (el : N)
  : side * list outcome * result * N :=
  match fuel with
  | O => (sd, sc, RExhausted, el)                                       (* :103 attempt = max, :167 *)
  | S f =>
    let el := el + b in                                                 (* :108 time.After(backoff) *)
    match sc with
    | [] => (sd, [], RCancelled, el)                                    (* :105 ctx.Done *)
    | o :: sc' =>
      let n := N.of_nat (length rem) in
      let sd1 := log_call rem o sd in                                   (* :120 the DA call *)
      let el := el + call_cost o in
      match helper_status o n with
      | (SSuccess, cnt) =>                                              (* :124-144 *)
          let submitted := firstn (N.to_nat cnt) rem in
          let sd2 := set_last (last_height submitted) sd1 in            (* :136 postSubmit *)
          if cnt =? n then (sd2, sc', RDone, el)                        (* :129 submittedAll *)
          else submit c f 0 (skipn (N.to_nat cnt) rem) sc' sd2 el
      | (SNotIncluded, _) | (SInMempool, _) =>                          (* :145-153 *)
          submit c f (c_bt c * c_ttl c) rem sc' sd1 el
      | (SCanceled, _) => (sd1, sc', RCancelled, el)                    (* :154-156 *)
      | _ => submit c f (exp_backoff c b) rem sc' sd1 el                (* :157-164 *)
      end
    end
  end.

(* one iteration of a submission loop body (submitter.go:24-38 / 53-69).  [rel] = None for headers, Some f for
   data where f tells which heights carry transactions (createSignedDataToSubmit, submitter.go:253-256). *)
Definition tick_side (c : cfg) (rel : option (N -> bool)) (init height : N) (sc : list outcome) (sd : side)
  : side * list outcome * result * N :=
  if vol sd =? height then (sd, sc, RIdle, 0)
  else match pending_range init height (vol sd) with
       | None => (sd, sc, RGetErr, 0)
       | Some r =>
           let items := match rel with Some f => filter f r | None => r end in
           match items with
           | [] => (sd, sc, RNothing, 0)
           | _ => submit c max_attempts 0 items sc sd 0
           end
       end.

Definition made_call (r : result) : bool :=
  match r with RIdle | RNothing | RGetErr => false | _ => true end.

(* the loop itself, run until the DA script is used up (then its context is cancelled) or the loop is
   quiescent (an iteration that makes no DA call changes nothing, so all further ones do the same) *)
Fixpoint loop_side (c : cfg) (rel : option (N -> bool)) (init height : N) (fuel : nat) (sc : list outcome) (sd : side)
  : side :=
  match fuel with
  | O => sd
  | S f => match sc with
           | [] => sd
           | _ => let '(sd', sc', r, _) := tick_side c rel init height sc sd in
                  if made_call r then loop_side c rel init height f sc' sd' else sd'
           end
  end.

(* ---- the node ---------------------------------------------------------------------------------------- *)

Record state := { s_init : N;             (* genesis.InitialHeight *)
                  s_chain : list bool;    (* committed blocks from the initial height on: has transactions? *)
                  s_h : side;             (* pendingHeaders + header blobs on the DA layer *)
                  s_d : side }.           (* pendingData + data blobs on the DA layer *)

(* store height: manager.go:244,316 (initial - 1 at genesis), :722 (+1 per committed block) *)
Definition height (s : state) : N := s_init s - 1 + N.of_nat (length (s_chain s)).

Definition nonempty_at (init : N) (chain : list bool) (i : N) : bool :=
  (init <=? i) && nth (N.to_nat (i - init)) chain false.

Definition rel_of (k : kind) (s : state) : option (N -> bool) :=
  match k with KHeader => None | KData => Some (nonempty_at (s_init s) (s_chain s)) end.

Definition get_side (k : kind) (s : state) : side := match k with KHeader => s_h s | KData => s_d s end.
Definition set_side (k : kind) (s : state) (sd : side) : state :=
  match k with
  | KHeader => {| s_init := s_init s; s_chain := s_chain s; s_h := sd; s_d := s_d s |}
  | KData => {| s_init := s_init s; s_chain := s_chain s; s_h := s_h s; s_d := sd |}
  end.

Definition boot_side (init : N) : side := {| vol := resume init None; meta := None; acc := []; calls := [] |}.
Definition boot (init : N) : state := {| s_init := init; s_chain := []; s_h := boot_side init; s_d := boot_side init |}.

Inductive item :=
| IPublish (nonempty : bool)              (* a block is committed (publishBlockInternal) *)
| ITick (k : kind) (sc : list outcome)    (* one iteration of the k submission loop; DA answers from sc, then cancellation *)
| ILoop (k : kind) (sc : list outcome)    (* the k submission loop itself until sc is used up / quiescent *)
| IRestart.                               (* process restart: NewManager on the same datastore *)

Definition step (c : cfg) (s : state) (i : item) : state * (result * N) :=
  match i with
  | IPublish b => ({| s_init := s_init s; s_chain := s_chain s ++ [b]; s_h := s_h s; s_d := s_d s |}, (RIdle, 0))
  | ITick k sc => let '(sd, _, r, el) := tick_side c (rel_of k s) (s_init s) (height s) sc (get_side k s) in
                  (set_side k s sd, (r, el))
  | ILoop k sc => (set_side k s (loop_side c (rel_of k s) (s_init s) (height s) (S (length sc)) sc (get_side k s)), (RIdle, 0))
  | IRestart => ({| s_init := s_init s; s_chain := s_chain s; s_h := reinit (s_init s) (s_h s); s_d := reinit (s_init s) (s_d s) |}, (RIdle, 0))
  end.

Definition run_from (c : cfg) (s : state) (h : list item) : state := fold_left (fun s i => fst (step c s i)) h s.
Definition run (c : cfg) (init : N) (h : list item) : state := run_from c (boot init) h.

(* ---- run-length form of a history (case files of harness/c06 only) ------------------------------------ *)
(* An idle chain (or a busy one) commits hundreds of blocks of the same kind in a row; the case files write such
   a stretch as ONE item.  It is not a new behaviour: it expands, inside Coq, to n single IPublish items, so the
   pending ranges, DA calls and watermarks the model computes — and every theorem of Props/C06.v, which
   quantify over all [list item] — are those of the expanded history. *)
Inductive hitem :=
| HI (i : item)
| HPublishN (nonempty : bool) (n : N).    (* n times IPublish nonempty *)

Definition expand (h : hitem) : list item :=
  match h with HI i => [i] | HPublishN b n => repeat (IPublish b) (N.to_nat n) end.
Definition expand_hist (h : list hitem) : list item := flat_map expand h.
