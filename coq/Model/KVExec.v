(* Model/KVExec.v — apps/testapp/kv/kvexecutor.go (KVExecutor, the reference key/value execution layer),
   as repaired by fixes/C15-finalized-height-in-root.diff (the finalization key is reserved like the two
   genesis keys).  One machine: the datastore (all keys in ONE keyspace, as in the code) plus the volatile
   mempool channel.  Definitions only; proofs are in Proofs/KVExecProofs.v. *)
From Coq Require Import String Ascii NArith List Bool.
From Verif Require Import Base.Keys.
Import ListNotations.
Open Scope string_scope.
Open Scope list_scope.

Definition byte (c : ascii) : N := N_of_ascii c.

(* ---- strings.SplitN(tx, "=", 2)  (kvexecutor.go:192-195): None = fewer than two parts ------------- *)
Fixpoint split_eq (s : string) : option (string * string) :=
  match s with
  | EmptyString => None
  | String c r =>
      if (byte c =? 61)%N then Some (EmptyString, r)
      else match split_eq r with
           | Some (k, v) => Some (String c k, v)
           | None => None
           end
  end.

(* ---- strings.TrimSpace (kvexecutor.go:196-197): unicode.IsSpace over UTF-8 ------------------------ *)
(* '\t' '\n' '\v' '\f' '\r' ' ' *)
Definition ascii_space (c : ascii) : bool :=
  ((9 <=? byte c) && (byte c <=? 13) || (byte c =? 32))%N.
(* U+0085, U+00A0 = C2 85, C2 A0 *)
Definition space2 (a b : N) : bool := ((a =? 194) && ((b =? 133) || (b =? 160)))%N.
(* U+1680 = E1 9A 80; U+2000..U+200A, U+2028, U+2029, U+202F = E2 80 (80..8A | A8 | A9 | AF);
   U+205F = E2 81 9F; U+3000 = E3 80 80 *)
Definition space3 (a b c : N) : bool :=
  ((a =? 225) && (b =? 154) && (c =? 128)
   || (a =? 226) && (b =? 128) && ((128 <=? c) && (c <=? 138) || (c =? 168) || (c =? 169) || (c =? 175))
   || (a =? 226) && (b =? 129) && (c =? 159)
   || (a =? 227) && (b =? 128) && (c =? 128))%N.

(* one leading white-space rune removed (utf8.DecodeRuneInString + unicode.IsSpace) *)
Definition lead_space (s : string) : option string :=
  match s with
  | String a r =>
      if ascii_space a then Some r else
      match r with
      | String b r2 =>
          if space2 (byte a) (byte b) then Some r2 else
          match r2 with
          | String c r3 => if space3 (byte a) (byte b) (byte c) then Some r3 else None
          | EmptyString => None
          end
      | EmptyString => None
      end
  | EmptyString => None
  end.

(* the same on the reversed string (utf8.DecodeLastRuneInString): last byte first *)
Definition lead_space_rev (s : string) : option string :=
  match s with
  | String z r =>
      if ascii_space z then Some r else
      match r with
      | String y r2 =>
          if space2 (byte y) (byte z) then Some r2 else
          match r2 with
          | String x r3 => if space3 (byte x) (byte y) (byte z) then Some r3 else None
          | EmptyString => None
          end
      | EmptyString => None
      end
  | EmptyString => None
  end.

Fixpoint strip (f : string -> option string) (fuel : nat) (s : string) : string :=
  match fuel with
  | O => s
  | S n => match f s with Some r => strip f n r | None => s end
  end.

Fixpoint srev_aux (s acc : string) : string :=
  match s with EmptyString => acc | String c r => srev_aux r (String c acc) end.
Definition srev (s : string) : string := srev_aux s EmptyString.

(* TrimSpace = TrimRightFunc (TrimLeftFunc s IsSpace) IsSpace; fuel = length, never exhausted early
   because every removed rune is at least one byte *)
Definition trim (s : string) : string :=
  let l := strip lead_space (String.length s) s in
  srev (strip lead_space_rev (String.length l) (srev l)).

(* ---- ds.NewKey (go-datastore key.go: Clean = path.Clean("/" + s)) --------------------------------- *)
(* strings.Split(s, "/") *)
Fixpoint split_slash (s : string) : list string :=
  match s with
  | EmptyString => [EmptyString]
  | String c r =>
      if (byte c =? 47)%N then EmptyString :: split_slash r
      else match split_slash r with
           | x :: t => String c x :: t
           | [] => [String c EmptyString]
           end
  end.

(* path.Clean on a rooted path: empty and "." elements vanish, ".." removes the element before it
   (and vanishes at the root); the stack holds the kept elements, last one first *)
Definition clean_step (stack : list string) (c : string) : list string :=
  if String.eqb c "" || String.eqb c "." then stack
  else if String.eqb c ".." then tl stack
  else c :: stack.

Definition join_path (elems : list string) : string :=
  match elems with
  | [] => "/"
  | _ => fold_left (fun acc c => append acc (String "/"%char c)) elems EmptyString
  end.

Definition clean_key (s : string) : string :=
  join_path (rev (fold_left clean_step (split_slash s) [])).

(* ---- reserved keys (kvexecutor.go:16-19 and the repaired SetFinal key) ---------------------------- *)
Definition k_initialized : string := "/genesis/initialized".   (* genesisInitializedKey *)
Definition k_stateroot : string := "/genesis/stateroot".       (* genesisStateRootKey *)
Definition k_final : string := "/finalizedHeight".             (* finalizedHeightKey (SetFinal) *)

Definition reserved (k : string) : bool :=
  String.eqb k k_initialized || String.eqb k k_stateroot || String.eqb k k_final.

(* ---- one transaction: kvexecutor.go:191-205.  None = any of the three rejections ------------------ *)
Definition parse_tx (tx : string) : option (string * string) :=
  match split_eq tx with
  | None => None                                   (* "malformed transaction; expected format key=value" *)
  | Some (k, v) =>
      let k := trim k in
      let v := trim v in
      if String.eqb k "" then None                 (* "empty key in transaction" *)
      else let ck := clean_key k in
           if reserved ck then None                (* "transaction attempts to modify reserved key" *)
           else Some (ck, v)
  end.

(* the whole block is staged first; any rejection returns before batch.Commit: all or nothing *)
Fixpoint parse_block (txs : list string) : option (list (string * string)) :=
  match txs with
  | [] => Some []
  | t :: r => match parse_tx t with
              | None => None
              | Some p => match parse_block r with
                          | None => None
                          | Some ps => Some (p :: ps)
                          end
              end
  end.

Definition block_ok (txs : list string) : bool :=
  match parse_block txs with Some _ => true | None => false end.

(* ---- the datastore: finite map with keys in byte order (badger iterates in key order; the code
   sorts the keys again, sort.Strings = byte order = String.compare) ------------------------------- *)
Definition db := list (string * string).

Fixpoint db_get (k : string) (m : db) : option string :=
  match m with
  | [] => None
  | (k', v) :: r => if String.eqb k k' then Some v else db_get k r
  end.

Fixpoint db_put (k v : string) (m : db) : db :=
  match m with
  | [] => [(k, v)]
  | (k', v') :: r =>
      match String.compare k k' with
      | Eq => (k, v) :: r
      | Lt => (k, v) :: (k', v') :: r
      | Gt => (k', v') :: db_put k v r
      end
  end.

(* batch.Put ... batch.Commit: the staged puts in order, the last one for a key wins *)
Definition db_puts (ps : list (string * string)) (m : db) : db :=
  fold_left (fun m p => db_put (fst p) (snd p) m) ps m.

(* computeStateRoot (kvexecutor.go:60-92): all keys except the reserved ones, sorted, "key:value;" *)
Definition user (m : db) : db := filter (fun e => negb (reserved (fst e))) m.

Fixpoint render (m : db) : string :=
  match m with
  | [] => EmptyString
  | (k, v) :: r => append k (String ":"%char (append v (String ";"%char (render r))))
  end.

Definition root (m : db) : string := render (user m).

(* ---- the machine ---------------------------------------------------------------------------------- *)
Definition mempool_cap : N := 10000.               (* txChannelBufferSize *)

Record st := { s_db : db; s_mp : list string }.    (* s_mp = contents of txChan, oldest first *)
Definition init_st : st := {| s_db := []; s_mp := [] |}.

Inductive item :=
| IInit                        (* InitChain (arguments are ignored by the code) *)
| IExec (txs : list string)    (* ExecuteTxs (height, timestamp, prevStateRoot are ignored by the code) *)
| IFinal (h : N)               (* SetFinal *)
| IInject (tx : string)        (* InjectTx *)
| IGetTxs                      (* GetTxs *)
| IReopen.                     (* process restart: NewKVExecutor on the same directory *)

Inductive out :=
| OInit (r : option string)    (* genesis root; None = error *)
| OExec (r : option string)    (* new state root; None = error, nothing written *)
| OFinal (ok : bool)
| OTxs (l : list string)
| ONone.

Definition step (s : st) (i : item) : st * out :=
  match i with
  | IInit =>                                                         (* kvexecutor.go:97-143 *)
      match db_get k_initialized (s_db s) with
      | Some _ => (s, OInit (db_get k_stateroot (s_db s)))            (* None: "failed to retrieve state root" *)
      | None =>
          let r := root (s_db s) in
          ({| s_db := db_puts [(k_stateroot, r); (k_initialized, "true")] (s_db s); s_mp := s_mp s |},
           OInit (Some r))
      end
  | IExec txs =>                                                     (* kvexecutor.go:178-228 *)
      match parse_block txs with
      | None => (s, OExec None)
      | Some ps =>
          let m := db_puts ps (s_db s) in
          ({| s_db := m; s_mp := s_mp s |}, OExec (Some (root m)))
      end
  | IFinal h =>                                                      (* kvexecutor.go:231-244 *)
      if (h =? 0)%N then (s, OFinal false)
      else ({| s_db := db_put k_final (dec h) (s_db s); s_mp := s_mp s |}, OFinal true)
  | IInject tx =>                                                    (* kvexecutor.go:248-257 *)
      if (N.of_nat (List.length (s_mp s)) <? mempool_cap)%N
      then ({| s_db := s_db s; s_mp := s_mp s ++ [tx] |}, ONone)
      else (s, ONone)                                                (* channel full: dropped *)
  | IGetTxs => ({| s_db := s_db s; s_mp := [] |}, OTxs (s_mp s))     (* kvexecutor.go:147-173 *)
  | IReopen => ({| s_db := s_db s; s_mp := [] |}, ONone)             (* kvexecutor.go:32-41: new channel *)
  end.

(* run a history; outputs in order, each with the state root the store has after the call *)
Fixpoint run (s : st) (h : list item) : st * list (out * string) :=
  match h with
  | [] => (s, [])
  | i :: r =>
      let '(s1, o) := step s i in
      let '(s2, os) := run s1 r in
      (s2, (o, root (s_db s1)) :: os)
  end.

Definition final (h : list item) : st := fst (run init_st h).
Definition outputs (h : list item) : list (out * string) := snd (run init_st h).

(* ---- the specification's vocabulary ----------------------------------------------------------------- *)
(* the ExecuteTxs calls of a history, in order *)
Definition blocks_of (h : list item) : list (list string) :=
  flat_map (fun i => match i with IExec b => [b] | _ => [] end) h.

(* the ordered transactions executed so far: those of the blocks that were accepted *)
Definition executed (bs : list (list string)) : list string := concat (filter block_ok bs).

(* the state root as a function of an ordered transaction list alone: every transaction applied to the
   empty store, one at a time *)
Definition apply_tx (m : db) (tx : string) : db :=
  match parse_tx tx with Some (k, v) => db_put k v m | None => m end.
Definition root_of_txs (txs : list string) : string := render (fold_left apply_tx txs []).

(* what the i-th ExecuteTxs call must return, from the blocks alone *)
Fixpoint spec_exec (done : list (list string)) (bs : list (list string)) : list (option string) :=
  match bs with
  | [] => []
  | b :: r =>
      if block_ok b then Some (root_of_txs (executed (done ++ [b]))) :: spec_exec (done ++ [b]) r
      else None :: spec_exec done r
  end.

(* the ExecuteTxs results among the outputs *)
Definition exec_outs (os : list (out * string)) : list (option string) :=
  flat_map (fun o => match fst o with OExec r => [r] | _ => [] end) os.

Definition init_outs (os : list (out * string)) : list (option string) :=
  flat_map (fun o => match fst o with OInit r => [r] | _ => [] end) os.

Definition is_exec (i : item) : bool := match i with IExec _ => true | _ => false end.
Definition is_init (i : item) : bool := match i with IInit => true | _ => false end.
