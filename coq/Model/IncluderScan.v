(* Model/IncluderScan.v — the FULL NODE around the includer of Model/Includer.v: where the DA-included marks
   of a non-aggregator come from and where the DA scan resumes after a restart.
   Mirrors block/retriever.go (RetrieveLoop: the cursor m.daHeight moves by one iff processNextDAHeaderAndData
   returned nil; processNextDAHeaderAndData: up to dAFetcherRetries = 10 attempts, 100 ms apart, a
   "from the future" answer is returned at once; handlePotentialHeader / handlePotentialData: SetDAIncluded
   for every genuine header / signed data blob found), types/da.go RetrieveWithHelpers (status mapping),
   block/sync.go trySyncNextBlock (what is written with an applied block) and block/manager.go NewManager
   (m.daHeight := max(State.DAHeight, config.DA.StartHeight); the model is of DA.StartHeight = 0).
   The DA layer is part of the state: the list of the blob lists of DA heights 1, 2, ... (height 0 is empty),
   as classes decided by the retriever's admission tests.  It answers LISTINGS truthfully (GetIDs says
   "not found" only for a height without blobs, "from the future" for a height above the tip); everything else
   it may do wrong is a [fault] met by one fetch attempt.
   Every full-node item is translated to items of Model/Includer.v ([items_of]); the includer part of the state
   evolves by [Includer.step] on them, so every theorem about [Includer.run] holds for full-node histories.
   Definitions only; proofs are in Proofs/IncluderScanProofs.v. *)
From Coq Require Import NArith List Bool.
From Verif Require Import Model.Includer.
Import ListNotations.
Open Scope N_scope.

(* what the retriever makes of one blob found at a DA height *)
Inductive blob :=
| BH (id : N)    (* header signed by the genesis proposer, ValidateBasic = nil: headerCache.SetDAIncluded (retriever.go:112-148) *)
| BD (id : N)    (* signed data of the proposer with >= 1 tx and metadata: dataCache.SetDAIncluded (retriever.go:162-187) *)
| BF (id : N)    (* a FORGED copy of header [id]: decodes as a signed header with the fields of the genuine one (hence the
                    same header hash, the key of headerCache) but is not validly signed by the genesis proposer
                    (any signature bytes, the proposer's signature of another header, somebody else's key and signature):
                    SignedHeader.ValidateBasic / isUsingExpectedSingleSequencer reject it (retriever.go:127-141) BEFORE the
                    cache is touched, whether or not the hash is already marked as seen: ignored *)
| BG (id : N)    (* a forged copy of signed data [id] (same transactions, hence the same commitment, the key of
                    dataCache; not validly signed by the proposer): isValidSignedData rejects it (retriever.go:174-177): ignored *)
| BJ.            (* every other byte string: ignored *)

Definition blob_eqb (a b : blob) : bool :=
  match a, b with
  | BH x, BH y => (x =? y)
  | BD x, BD y => (x =? y)
  | BF x, BF y => (x =? y)
  | BG x, BG y => (x =? y)
  | BJ, BJ => true
  | _, _ => false
  end.

(* what one fetch attempt (RetrieveWithHelpers) can meet instead of being served:
   - FList fut: GetIDs fails with an error whose text does not contain "blob: not found";
     fut = it contains "given height is from the future" (types/da.go:123: StatusHeightFromFuture), otherwise
     StatusError "failed to get IDs" (types/da.go:134);
   - FGet nf fut: GetIDs lists the ids and the Get of a chunk fails: StatusError "failed to get blobs for batch"
     (types/da.go:165); nf = the text contains "blob: not found", which makes NO difference to the code
     (retriever.go:94 special-cases the from-the-future text only); fut = it contains the from-the-future text. *)
Inductive fault := FList (fut : bool) | FGet (nf fut : bool).

(* the truthful answer of the DA layer for the height the cursor points at *)
Inductive listing :=
| LFuture                      (* above the tip: GetIDs -> ErrHeightFromFuture *)
| LEmpty                       (* no blob: GetIDs -> ErrBlobNotFound -> StatusNotFound *)
| LBlobs (bl : list blob).     (* GetIDs lists, Get serves *)

(* processNextDAHeaderAndData: stays (returns an error: the loop does not move the cursor) or returns nil
   after having handled the blobs [bl] *)
Inductive pres := PStay | PAdv (bl : list blob).

Definition retries : nat := 10.                  (* dAFetcherRetries *)

Definition honest (l : listing) : pres :=
  match l with LFuture => PStay | LEmpty => PAdv [] | LBlobs bl => PAdv bl end.

(* retriever.go:66-108: [n] attempts left, [fs] = the faults successive attempts meet (then truthful service).
   A Get fault can only be met where GetIDs listed something. *)
Fixpoint proc (n : nat) (l : listing) (fs : list fault) : pres :=
  match n with
  | O => PStay                                                  (* retriever.go:108: all attempts failed *)
  | S n' =>
      match fs with
      | [] => honest l                                          (* :73-93 success / not found, :94-96 future *)
      | FList fut :: r => if fut then PStay else proc n' l r    (* :94-96 | :99-106 retry *)
      | FGet _ fut :: r =>
          match l with
          | LBlobs _ => if fut then PStay else proc n' l r      (* :94-96 | :99-106 retry *)
          | _ => honest l                                       (* Get is not reached *)
          end
      end
  end.

(* handlePotentialHeader / handlePotentialData over the blobs of DA height [da], in order *)
Definition mark_items (da : N) (bl : list blob) : list item :=
  flat_map (fun b => match b with BH id => [IMarkH id da] | BD id => [IMarkD id da] | BF _ | BG _ | BJ => [] end) bl.

Record fnode := {
  nd : node;                   (* the includer's view: Model/Includer.v *)
  cur : N;                     (* volatile: m.daHeight, the next DA height to examine *)
  sdah : N;                    (* durable: State.DAHeight as last written by updateState *)
  dal : list (list blob)       (* the DA layer: blobs of heights 1, 2, ... *)
}.

Definition top (s : fnode) : N := N.of_nat (length (dal s)).
Definition content (d : list (list blob)) (h : N) : list blob :=
  if (h =? 0) then [] else nth (N.to_nat (h - 1)) d [].
Definition listing_at (s : fnode) : listing :=
  if (top s <? cur s) then LFuture
  else match content (dal s) (cur s) with [] => LEmpty | bl => LBlobs bl end.

Inductive fitem :=
| FNop                          (* something that does not concern this node (the source chain produces a block) *)
| FApply (b : blk)              (* trySyncNextBlock applies a block (from P2P or from DA events) *)
| FPost (bl : list blob)        (* the DA layer produces its next height with these blobs *)
| FScan (fs : list fault)       (* one RetrieveLoop iteration; the attempts meet the faults [fs], then truthful service *)
| FInclude                      (* as in Includer *)
| FCrash (k : nat)
| FFault (k : nat)
| FRestart.

Definition scan_res (s : fnode) (fs : list fault) : pres := proc retries (listing_at s) fs.

Definition items_of (s : fnode) (i : fitem) : list item :=
  match i with
  | FNop | FPost _ => []
  | FApply b => [IAppend b]
  | FScan fs => match scan_res s fs with PStay => [] | PAdv bl => mark_items (cur s) bl end
  | FInclude => [IInclude]
  | FCrash k => [ICrash k]
  | FFault k => [IFault k]
  | FRestart => [IRestart]
  end.

Definition fstep (s : fnode) (i : fitem) : fnode :=
  let n' := run_from (nd s) (items_of s i) in
  match i with
  | FNop | FInclude => {| nd := n'; cur := cur s; sdah := sdah s; dal := dal s |}
  | FApply _ =>
      (* sync.go:170-187: SaveBlockData, updateState(newState), SetHeight; newState.DAHeight is the previous
         state's (types/state.go NextState copies it): the line that raises it to the event's DA height runs
         AFTER the state was written and changes a local copy only.  The stored DAHeight does not move. *)
      {| nd := n'; cur := cur s; sdah := sdah s; dal := dal s |}
  | FPost bl => {| nd := n'; cur := cur s; sdah := sdah s; dal := dal s ++ [bl] |}
  | FScan fs =>
      (* retriever.go:35-50: Store(daHeight + 1) iff processNextDAHeaderAndData returned nil *)
      {| nd := n'; cur := match scan_res s fs with PStay => cur s | PAdv _ => cur s + 1 end;
         sdah := sdah s; dal := dal s |}
  | FCrash _ | FFault _ | FRestart =>
      (* NewManager (manager.go:320-322, 373-374): m.daHeight := State.DAHeight (DA.StartHeight = 0) *)
      {| nd := n'; cur := sdah s; sdah := sdah s; dal := dal s |}
  end.

Definition frun_from (s : fnode) (h : list fitem) : fnode := fold_left fstep h s.
(* first start on an empty store: State.DAHeight = 0 (manager.go:247) *)
Definition finit (b : N) : fnode := {| nd := init b; cur := 0; sdah := 0; dal := [] |}.
Definition frun (b : N) (h : list fitem) : fnode := frun_from (finit b) h.

(* the history of Model/Includer.v items a full-node history amounts to *)
Fixpoint ftrace (s : fnode) (h : list fitem) : list item :=
  match h with
  | [] => []
  | i :: r => items_of s i ++ ftrace (fstep s i) r
  end.

(* ---- vocabulary of the statements ------------------------------------------------------------------ *)
Definition is_boot (i : fitem) : bool :=
  match i with FCrash _ | FFault _ | FRestart => true | _ => false end.

(* the blob is somewhere on the DA layer *)
Definition da_has (d : list (list blob)) (x : blob) : bool := existsb (fun bl => existsb (blob_eqb x) bl) d.
(* both parts of the block are on the DA layer *)
Definition on_da (d : list (list blob)) (x : blk) : bool :=
  da_has d (BH (bh x)) && (bempty x || da_has d (BD (bd x))).

(* the faults of this iteration are transient: fewer than [retries] of them and none carries the
   from-the-future text — truthful service is reached *)
Fixpoint served (n : nat) (fs : list fault) : bool :=
  match n with
  | O => false
  | S n' => match fs with
            | [] => true
            | FList fut :: r => negb fut && served n' r
            | FGet _ fut :: r => negb fut && served n' r
            end
  end.
Definition n_served (fss : list (list fault)) : N := N.of_nat (length (filter (served retries) fss)).

(* a forged copy taken for what it is worth to the node: some byte string *)
Definition unforge (x : blob) : blob := match x with BF _ | BG _ => BJ | _ => x end.
Definition unforge_item (i : fitem) : fitem :=
  match i with FPost bl => FPost (map unforge bl) | _ => i end.
Definition is_forged (x : blob) : bool := match x with BF _ | BG _ => true | _ => false end.
