(* Model/StoreCaller.v — the caller's side of pkg/store/store.go: SaveBlockData takes POINTERS
   (`header *types.SignedHeader, data *types.Data`) and GetBlockData / GetHeader / GetBlockByHash hand pointers back, so
   between two calls of the store the caller can modify, in place, the objects it passed in or was given
   (block/publish_block.go publishBlockInternal does, between its early and its final save of a block: `data.Metadata =
   ...`, `header.Signature = signature`; block/manager.go re-uses what GetBlockData returned for the pending block).
   DefaultStore (store.go: `type DefaultStore struct { db ds.Batching }`) keeps NOTHING but the datastore handle:
   SaveBlockData marshals the objects (`header.MarshalBinary()`, `data.MarshalBinary()`) and puts the BYTES into one
   batch; every read decodes the stored bytes into a NEW object (`header := new(types.SignedHeader);
   header.UnmarshalBinary(headerBlob)`, `data := new(types.Data)`).  So the caller's objects and the store share
   nothing: modifying them is an event of the history that changes the caller's side only.
   The machine below keeps both sides - the database image and the CONTENT of the caller's objects - and runs
   histories in which such modifications occur.  Definitions only; proofs are in Proofs/StoreCallerProofs.v. *)
From Coq Require Import String Ascii NArith List Bool.
From Verif Require Import Base.KV Base.Keys Model.Store.
Import ListNotations.

(* the content of a header object and of a data object the caller holds (None: it holds none) *)
Record objs := { o_hdr : option hdr; o_data : option N }.
Definition no_objs : objs := {| o_hdr := None; o_data := None |}.

Inductive citem :=
| CI (i : item)                                  (* a call of the store / reopen / crash / write fault: Model/Store.v *)
| CMutSaved (h : option hdr) (d : option N)      (* the caller overwrites the header (Some h) and / or the data (Some d)
                                                    object it passed to its LATEST SaveBlockData; the store is not called *)
| CMutRead (h : option hdr) (d : option N).      (* the same on the objects its latest read returned *)

Record cstate := {
  c_img : img;         (* the database *)
  c_saved : objs;      (* the objects of the caller's latest SaveBlockData call, as they are NOW *)
  c_read : objs        (* the objects the latest successful read returned, as they are NOW *)
}.
Definition c_init : cstate := {| c_img := []; c_saved := no_objs; c_read := no_objs |}.

(* in-place assignment: an object the caller does not hold cannot be written to *)
Definition overwrite (o : objs) (h : option hdr) (d : option N) : objs :=
  {| o_hdr := match o_hdr o, h with Some _, Some x => Some x | cur, _ => cur end;
     o_data := match o_data o, d with Some _, Some x => Some x | cur, _ => cur end |}.

(* which objects a store item leaves in the caller's hands: a save (completed or refused by a write fault) - the ones
   it passed in; a read - the NEW objects decoded from the stored bytes; a crash - none, the process is gone *)
Definition saved_after (cur : objs) (i : item) : objs :=
  match i with
  | IOp (OSave h d _) | IFault (OSave h d _) _ => {| o_hdr := Some h; o_data := Some d |}
  | ICrash _ _ => no_objs
  | _ => cur
  end.
Definition read_after (cur : objs) (i : item) (r : option out) : objs :=
  match i with
  | ICrash _ _ => no_objs
  | _ => match r with
         | Some (RBlock h d) => {| o_hdr := Some h; o_data := Some d |}
         | Some (RHeader h) => {| o_hdr := Some h; o_data := None |}
         | _ => cur
         end
  end.

(* one item: what the store returns to the caller (nothing for a modification: no call is made) *)
Definition cstep (st : cstate) (ci : citem) : cstate * list (option out) :=
  match ci with
  | CI i =>
      let '(m', r) := istep (c_img st) i in
      ({| c_img := m'; c_saved := saved_after (c_saved st) i; c_read := read_after (c_read st) i r |}, [r])
  | CMutSaved h d => ({| c_img := c_img st; c_saved := overwrite (c_saved st) h d; c_read := c_read st |}, [])
  | CMutRead h d => ({| c_img := c_img st; c_saved := c_saved st; c_read := overwrite (c_read st) h d |}, [])
  end.

Fixpoint crun (st : cstate) (h : list citem) : cstate * list (option out) :=
  match h with
  | [] => (st, [])
  | ci :: r => let '(st', o) := cstep st ci in let '(st'', os) := crun st' r in (st'', (o ++ os)%list)
  end.

Definition cfinal (h : list citem) : img := c_img (fst (crun c_init h)).
Definition coutputs (h : list citem) : list (option out) := snd (crun c_init h).

(* the calls of the store in a history, the caller's modifications of its objects left out *)
Definition erase (h : list citem) : list item :=
  flat_map (fun ci => match ci with CI i => [i] | _ => [] end) h.

(* the number of modifications in a history (non-vacuity, distribution) *)
Definition modifications (h : list citem) : nat :=
  List.length (filter (fun ci => match ci with CI _ => false | _ => true end) h).
